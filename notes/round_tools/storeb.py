import json, os, shutil, sys
THEME = {"B1": "performance work (tables, fast paths, loop restructuring, shifts/masks, single pass)", "B2": "readability refactoring (helpers, early returns, comprehensions, formatting)",
         "B3": "state and architecture (buffers, lazily built tables, locks, constants moved)", "B4": "glue around the algorithms (wraps decorators, delegating wrappers in a5/__init__.py, shared helpers)"}
for key in sys.argv[1:]:
    b, k = key.split("-")
    src = f"/tmp/r11/{b}/out/change-{k}"
    conf = json.load(open(f"/tmp/r11/{b}/out/confirm.json"))[k]
    assert conf["demo_clean"] == 0 and conf["apply"] == 0 and "925 passed" in conf["pytest_last"] and conf["demo_changed"] == 0, (key, conf)
    dst = f"/verif/seeded/r11b-{b}-{k}"
    os.makedirs(dst, exist_ok=True)
    for f in ("patch.diff", "demo.py", "notes.md"):
        shutil.copy(f"{src}/{f}", f"{dst}/{f}")
    first = next((l.strip("# *").strip() for l in open(f"{src}/notes.md") if l.strip()), "")
    meta = {"id": f"r11b-{b}-{k}", "round": 11, "kind": "behaviour-preserving", "written_for_property": None,
            "author": f"independent sub-agent given a scratch worktree and a list of files (no access to /verif); theme: {THEME[b]}; asked for substantial behaviour-preserving changes with a differential demo",
            "summary": first[:200], "files": conf["files"], "breaks_claimed_properties": [], "may_break_claimed_properties": [],
            "confirmed_by_me": {"how": "in the change's scratch worktree under /tmp/r11: differential demo on the clean tree, git apply, full pytest run, demo again (both exit 0), git checkout; notes read for the equivalence argument",
                                "tests_with_change": conf["pytest_last"], "demo_exit_clean_tree": 0, "demo_exit_with_change": 0}}
    json.dump(meta, open(f"{dst}/meta.json", "w"), indent=1)
    print("stored", dst)
