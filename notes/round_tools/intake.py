"""confirm a delivered change myself: demo on clean tree, apply patch, full pytest, demo again, restore; write result json"""
import json, os, subprocess, sys
def sh(cmd, cwd, timeout=1500):
    p = subprocess.run(cmd, shell=True, cwd=cwd, capture_output=True, text=True, timeout=timeout)
    return p.returncode, (p.stdout + p.stderr)
def confirm(wt, k):
    out = f"{wt}/out/change-{k}"
    res = {"dir": out}
    if not os.path.isfile(f"{out}/patch.diff"):
        return {"dir": out, "missing": True}
    sh("git checkout -- a5", wt)
    rc, o = sh("git status --short a5", wt); res["clean_before"] = (o.strip() == "")
    rc, o = sh(f"/venv/bin/python out/change-{k}/demo.py", wt, 300); res["demo_clean"] = rc; res["demo_clean_last"] = (o.strip().splitlines() or [""])[-1][:300]
    rc, o = sh(f"git apply out/change-{k}/patch.diff", wt); res["apply"] = rc
    if rc: res["apply_err"] = o[:300]
    rc, o = sh("git diff --stat", wt); res["files"] = [l.split("|")[0].strip() for l in o.splitlines() if "|" in l]
    rc, o = sh("/venv/bin/python -m pytest -q -p no:cacheprovider -n 4 --timeout=900 2>&1 | tail -1", wt); res["pytest_last"] = o.strip()[-120:]
    rc, o = sh(f"/venv/bin/python out/change-{k}/demo.py", wt, 300); res["demo_changed"] = rc; res["demo_changed_last"] = (o.strip().splitlines() or [""])[-1][:300]
    sh("git checkout -- a5", wt); sh("git clean -fdq a5", wt)
    return res
if __name__ == "__main__":
    wt = sys.argv[1]; ks = sys.argv[2:]
    allr = {}
    for k in ks:
        allr[k] = confirm(wt, k)
    json.dump(allr, open(f"{wt}/out/confirm.json", "w"), indent=1)
    for k, r in allr.items():
        print(os.path.basename(wt), k, {x: r.get(x) for x in ("demo_clean", "apply", "pytest_last", "demo_changed", "files")})
